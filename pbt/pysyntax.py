"""A mini-AST of the expression syntax pymbolic shares with Python, and an
independent renderer to source text (Python's precedence table, minimal
parentheses, optional explicit redundant ones).

Nodes (JSON):
  ["name", "a"]  ["num", "3"|"2.5"|"1e3"|"True"]
  ["bin", op, l, r]      op in + - * / // % ** << >> & | ^
  ["un", op, x]          op in - + ~ not
  ["cmp", op, l, r]      op in == != < <= > >=
  ["bool", "and"|"or", [items]]
  ["ifexp", then, cond, else]
  ["call", f, [args], [[kw, value], ...]]
  ["sub", a, [indices]]  one index, or several (tuple index)
  ["attr", a, "name"]
  ["tuple", [items]]
  ["paren", x]           explicit redundant parentheses
"""
from __future__ import annotations

from pbt.spec import HarnessError

P_IF, P_OR, P_AND, P_NOT, P_CMP, P_BOR, P_BXOR, P_BAND, P_SHIFT, P_ADD, P_MUL, \
    P_UNARY, P_POW, P_PRIMARY = range(1, 15)

BIN_PREC = {"|": P_BOR, "^": P_BXOR, "&": P_BAND, "<<": P_SHIFT, ">>": P_SHIFT,
            "+": P_ADD, "-": P_ADD, "*": P_MUL, "/": P_MUL, "//": P_MUL,
            "%": P_MUL, "**": P_POW}
BINOPS = tuple(BIN_PREC)
CMPOPS = ("==", "!=", "<", "<=", ">", ">=")
TAGS = ("name", "num", "bin", "un", "cmp", "bool", "ifexp", "call", "sub",
        "attr", "tuple", "paren")


def is_node(x):
    return isinstance(x, list) and len(x) >= 2 and x[0] in TAGS


def render(n, ws=""):
    """Source text; *ws* is put around binary operators ("" or " ")."""
    return _r(n, 0, ws)


def _wrap(s, my, need):
    return f"({s})" if my < need else s


def _r(n, need, ws):
    t = n[0]
    if t == "name":
        return n[1]
    if t == "num":
        s = n[1]
        # a leading '-' is not a literal in Python; generators do not emit it
        return s
    if t == "paren":
        return "(" + _r(n[1], 0, ws) + ")"
    if t == "bin":
        op = n[1]
        pr = BIN_PREC[op]
        if op == "**":
            s = _r(n[2], P_PRIMARY, ws) + "**" + _r(n[3], P_UNARY, ws)
        else:
            s = _r(n[2], pr, ws) + f"{ws}{op}{ws}" + _r(n[3], pr + 1, ws)
        return _wrap(s, pr, need)
    if t == "un":
        if n[1] == "not":
            return _wrap("not " + _r(n[2], P_NOT, ws), P_NOT, need)
        return _wrap(n[1] + _r(n[2], P_UNARY, ws), P_UNARY, need)
    if t == "cmp":
        s = _r(n[2], P_CMP + 1, ws) + f" {n[1]} " + _r(n[3], P_CMP + 1, ws)
        return _wrap(s, P_CMP, need)
    if t == "bool":
        pr = P_AND if n[1] == "and" else P_OR
        if len(n[2]) < 2:
            raise HarnessError("bool op needs >=2 operands")
        s = f" {n[1]} ".join(_r(c, pr + 1, ws) for c in n[2])
        return _wrap(s, pr, need)
    if t == "ifexp":
        s = (_r(n[1], P_OR, ws) + " if " + _r(n[2], P_OR, ws) + " else "
             + _r(n[3], P_IF, ws))
        return _wrap(s, P_IF, need)
    if t == "call":
        args = [_r(a, P_IF, ws) for a in n[2]] + [
            f"{k}={_r(v, P_IF, ws)}" for k, v in n[3]]
        return _r(n[1], P_PRIMARY, ws) + "(" + ", ".join(args) + ")"
    if t == "sub":
        if not n[2]:
            raise HarnessError("empty subscript")
        idx = ", ".join(_r(a, P_IF, ws) for a in n[2])
        return _r(n[1], P_PRIMARY, ws) + "[" + idx + "]"
    if t == "attr":
        base = _r(n[1], P_PRIMARY, ws)
        if n[1][0] == "num":
            base = f"({base})"
        return base + "." + n[2]
    if t == "tuple":
        items = [_r(a, P_IF, ws) for a in n[1]]
        if len(items) == 1:
            return "(" + items[0] + ",)"
        return "(" + ", ".join(items) + ")"
    raise HarnessError(f"bad syntax node {n!r}")


def names(n, out=None):
    out = set() if out is None else out
    if is_node(n):
        if n[0] == "name":
            out.add(n[1])
        for c in n[1:]:
            if isinstance(c, list):
                names(c, out)
    elif isinstance(n, list):
        for c in n:
            names(c, out)
    return out


def ops(n, out=None):
    """Operators used, as (kind, op) pairs."""
    out = set() if out is None else out
    if is_node(n):
        if n[0] in ("bin", "un", "cmp", "bool"):
            out.add(n[1])
        if n[0] == "ifexp":
            out.add("ifexp")
        for c in n[1:]:
            if isinstance(c, list):
                ops(c, out)
    elif isinstance(n, list):
        for c in n:
            ops(c, out)
    return out


def prec_class(op):
    if op in BIN_PREC:
        return BIN_PREC[op]
    if op in CMPOPS:
        return P_CMP
    return {"and": P_AND, "or": P_OR, "not": P_NOT, "ifexp": P_IF,
            "-u": P_UNARY, "~": P_UNARY}.get(op, P_UNARY)
