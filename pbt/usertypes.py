"""User-defined node classes generated at run time from JSON hierarchy specs.

A hierarchy spec is {"root": "Expression"|"Variable"|"Call"|"Lookup",
                     "levels": [{"kind": "D"|"L", "fields": [names],
                                 "mapper_method": str|None}, ...],
                     "tag": str}            (class-name stem, CamelCase)
Level i derives from level i-1 (level 0 from the root).  "D" levels are
decorated with @expr_dataclass(); "L" levels are legacy classes using the
init-args protocol (own __init__, __getinitargs__, init_arg_names); "B" levels
are behaviour-only undecorated subclasses (no fields, no __init__; only below a
decorated ancestor).

Classes are registered under unique names as attributes of this module, so
dataclass creation, the mapper optimizer and pickle can find them; the same
spec yields the same classes in every process.
"""
from __future__ import annotations

import hashlib
import json
import sys
import warnings

import pymbolic.primitives as p

ROOTS = {"AlgebraicLeaf": (p.AlgebraicLeaf, ()), "Leaf": (p.Leaf, ()),
         "Expression": (p.Expression, ()),
         "Variable": (p.Variable, ("name",)),
         "Call": (p.Call, ("function", "parameters")),
         "Lookup": (p.Lookup, ("aggregate", "name"))}

_CACHE = {}
_THIS = sys.modules[__name__]
# values that __post_init__ of generated classes stores in their init=False fields
NOINIT_VALUES = {}


def _cls_name(spec, i):
    h = hashlib.sha1(json.dumps(spec, sort_keys=True).encode()).hexdigest()[:8]
    stem = spec.get("tag") or "UserNode"
    return f"{stem}L{i}X{h}"


def make_hierarchy(spec):
    """Return [(class, all_field_names, kind), ...] per level."""
    key = json.dumps(spec, sort_keys=True)
    if key in _CACHE:
        return _CACHE[key]
    base, fields = ROOTS[spec["root"]]
    fields = tuple(fields)
    out = []
    with warnings.catch_warnings():
        warnings.simplefilter("ignore")
        for i, lvl in enumerate(spec["levels"]):
            name = _cls_name(spec, i)
            new = tuple(lvl["fields"])
            allf = fields + new
            ns = {"__module__": __name__, "__qualname__": name}
            if lvl.get("mapper_method"):
                ns["mapper_method"] = lvl["mapper_method"]
            if lvl["kind"] == "D":
                ns["__annotations__"] = {f: "ExpressionT" for f in new}
                noinit = tuple(lvl.get("noinit", ()))
                if noinit:
                    # fields computed in __post_init__ (init=False), e.g. a serial number:
                    # they are fields like any other for equality and hashing
                    import dataclasses
                    for f in noinit:
                        ns["__annotations__"][f] = "int"
                        ns[f] = dataclasses.field(init=False)

                    def __post_init__(self, _noinit=noinit):
                        for f in _noinit:
                            object.__setattr__(self, f, NOINIT_VALUES.get(f, 0))
                    ns["__post_init__"] = __post_init__
                if lvl.get("init") is False:
                    # @expr_dataclass(init=False) with a hand-written constructor
                    def __init__(self, *args, _allf=allf):
                        if len(args) != len(_allf):
                            raise TypeError("wrong number of arguments")
                        for f, v in zip(_allf, args):
                            object.__setattr__(self, f, v)
                        post = getattr(self, "__post_init__", None)
                        if post is not None:
                            post()
                    ns["__init__"] = __init__
                    cls = type(name, (base,), ns)
                    cls = p.expr_dataclass(init=False)(cls)
                elif lvl.get("hash") is False:
                    # @expr_dataclass(hash=False) with a hand-written __hash__ that agrees
                    # with the generated __eq__ (all fields)
                    def __hash__(self, _allf=allf + tuple(lvl.get("noinit", ()))):
                        return hash((type(self).__name__,
                                     *[getattr(self, f) for f in _allf]))
                    ns["__hash__"] = __hash__
                    cls = type(name, (base,), ns)
                    cls = p.expr_dataclass(hash=False)(cls)
                else:
                    cls = type(name, (base,), ns)
                    cls = p.expr_dataclass()(cls)
            elif lvl["kind"] == "B":
                # behaviour-only subclass: undecorated, no fields, no __init__ of its
                # own (e.g. class FieldVariable(Variable): mapper_method = ...)
                if new:
                    raise ValueError("a behaviour-only level has no fields")
                cls = type(name, (base,), ns)
            else:
                cls = _legacy_class(name, base, fields, new, ns)
            setattr(_THIS, name, cls)
            out.append((cls, allf, lvl["kind"]))
            base, fields = cls, allf
    _CACHE[key] = out
    return out


def _legacy_class(name, base, base_fields, new, ns):
    allf = tuple(base_fields) + tuple(new)
    n_base = len(base_fields)
    base_is_dc = "_is_expr_dataclass" in base.__dict__ or any(
        "_is_expr_dataclass" in b.__dict__ for b in base.__mro__)

    def __init__(self, *args):
        if len(args) != len(allf):
            raise TypeError(f"{name} takes {len(allf)} arguments")
        if n_base or base is not p.Expression:
            base.__init__(self, *args[:n_base])
        for f, v in zip(new, args[n_base:]):
            # the decorated ancestor is frozen; a legacy subclass has to use
            # the back door for its own attributes
            object.__setattr__(self, f, v)

    def __getinitargs__(self):
        return tuple(getattr(self, f) for f in allf)

    ns = dict(ns)
    ns["__init__"] = __init__
    ns["__getinitargs__"] = __getinitargs__
    ns["init_arg_names"] = allf
    if ns.get("mapper_method") == "<none>":
        del ns["mapper_method"]     # an old-style class that never declared a handler name
    elif "mapper_method" not in ns and not base_is_dc:
        ns["mapper_method"] = "map_" + name.lower()
    return type(name, (base,), ns)


def instantiate(cls, allf, values):
    """values: dict field -> live value (missing fields get defaults)."""
    args = []
    for f in allf:
        if f in values:
            args.append(values[f])
        elif f == "name":
            args.append("nm")
        elif f == "parameters":
            args.append((p.Variable("pa"),))
        elif f in ("function", "aggregate"):
            args.append(p.Variable("fn"))
        else:
            args.append(0)
    return cls(*args)
