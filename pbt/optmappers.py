"""Mapper classes rewritten by pymbolic.mapper.optimize.optimize_mapper.

The optimizer re-reads the *source file* of the class, so the classes have to
live in an importable module.  OPT_FREE[(drop_args, drop_kwargs, inline_rec,
inline_cache, inline_get_cache_key)] is the argument-free renamer under that
option combination (all 32); OPT_ARGS[(drop_kwargs, inline_rec,
inline_get_cache_key)] the argument-passing renamer under the combinations
that are valid for a mapper that takes extra positional arguments
(drop_args=False, inline_cache=False: the inlined cache key ignores them).
"""
from __future__ import annotations

import itertools

import pymbolic.primitives as prim
from pymbolic.mapper import CachedIdentityMapper, CachedWalkMapper, IdentityMapper
from pymbolic.mapper.optimize import optimize_mapper

RENAME = {"x": prim.Variable("x_r"), "y": prim.Variable("y_r"), "f": prim.Variable("f_r")}

CALLS = []   # (class tag, handler, id of mapper) appended by the counting handlers


class PlainRenamer(IdentityMapper):
    def map_variable(self, expr):
        return RENAME.get(expr.name, expr)


class FreeRenamerSrc(CachedIdentityMapper):
    def map_variable(self, expr):
        CALLS.append(("free", expr.name, id(self)))
        return RENAME.get(expr.name, expr)

    def get_cache_key(self, expr):
        # type(expr) keeps 4, 4.0 and True apart
        return (type(expr), expr)


class PlainArgRenamer(IdentityMapper):
    def map_variable(self, expr, names, suffix):
        if expr.name in names:
            return prim.Variable(expr.name + suffix)
        return expr


class ArgRenamerSrc(CachedIdentityMapper):
    def map_variable(self, expr, names, suffix):
        CALLS.append(("args", expr.name, names, suffix, id(self)))
        if expr.name in names:
            return prim.Variable(expr.name + suffix)
        return expr

    def get_cache_key(self, expr, *args):
        return (type(expr), expr, args)


class PlainKwRenamer(IdentityMapper):
    def map_variable(self, expr, names, suffix="_r"):
        if expr.name in names:
            return prim.Variable(expr.name + suffix)
        return expr


class KwRenamerSrc(CachedIdentityMapper):
    def map_variable(self, expr, names, suffix="_r"):
        CALLS.append(("kw", expr.name, names, suffix, id(self)))
        if expr.name in names:
            return prim.Variable(expr.name + suffix)
        return expr

    def get_cache_key(self, expr, *args, **kwargs):
        return (type(expr), expr, args, tuple(sorted(kwargs.items())))


class WalkCounterSrc(CachedWalkMapper):
    """handlers return None: a cached None must still count as a hit"""

    def post_visit(self, expr):
        # the full structural key: repr() elides deep sub-terms ("Product((...,))")
        from pbt import walk
        CALLS.append(("walk", type(expr).__name__, repr(walk.key(expr, strict=True)),
                      id(self)))

    def get_cache_key(self, expr):
        return (type(expr), expr)


OPT_FREE = {}
OPT_FREE_ERRORS = {}
for _combo in itertools.product((False, True), repeat=5):
    _da, _dk, _ir, _ic, _ik = _combo
    try:
        OPT_FREE[_combo] = optimize_mapper(
            drop_args=_da, drop_kwargs=_dk, inline_rec=_ir, inline_cache=_ic,
            inline_get_cache_key=_ik)(FreeRenamerSrc)
    except Exception as _exc:  # reported by the check, not at import time
        OPT_FREE_ERRORS[_combo] = _exc

OPT_ARGS = {}
OPT_ARGS_ERRORS = {}
for _combo in itertools.product((False, True), repeat=3):
    _dk, _ir, _ik = _combo
    try:
        OPT_ARGS[_combo] = optimize_mapper(
            drop_args=False, drop_kwargs=_dk, inline_rec=_ir, inline_cache=False,
            inline_get_cache_key=_ik)(ArgRenamerSrc)
    except Exception as _exc:
        OPT_ARGS_ERRORS[_combo] = _exc

# keyword-passing family: nothing dropped, cache not inlined
OPT_KW = {}
OPT_KW_ERRORS = {}
for _combo in itertools.product((False, True), repeat=2):
    _ir, _ik = _combo
    try:
        OPT_KW[_combo] = optimize_mapper(
            drop_args=False, drop_kwargs=False, inline_rec=_ir, inline_cache=False,
            inline_get_cache_key=_ik)(KwRenamerSrc)
    except Exception as _exc:
        OPT_KW_ERRORS[_combo] = _exc

# walk family (handlers return None), arguments dropped
OPT_WALK = {}
OPT_WALK_ERRORS = {}
for _combo in itertools.product((False, True), repeat=3):
    _ir, _ic, _ik = _combo
    try:
        OPT_WALK[_combo] = optimize_mapper(
            drop_args=True, drop_kwargs=True, inline_rec=_ir, inline_cache=_ic,
            inline_get_cache_key=_ik)(WalkCounterSrc)
    except Exception as _exc:
        OPT_WALK_ERRORS[_combo] = _exc


# family 5: the class overrides handlers that base classes *alias*
# (IdentityMapper.map_product = map_sum, map_floor_div = map_quotient, ...): the alias
# keeps meaning the base class's function, only sums and quotients are marked
def _mark(tag, *children):
    return prim.Call(prim.Variable(tag), tuple(children))


class PlainMarker(IdentityMapper):
    def map_sum(self, expr):
        return _mark("marked_sum", *[self.rec(c) for c in expr.children])

    def map_quotient(self, expr):
        return _mark("marked_quotient", self.rec(expr.numerator), self.rec(expr.denominator))

    def map_bitwise_or(self, expr):
        return _mark("marked_or", *[self.rec(c) for c in expr.children])


class MarkerSrc(CachedIdentityMapper):
    def map_sum(self, expr):
        return _mark("marked_sum", *[self.rec(c) for c in expr.children])

    def map_quotient(self, expr):
        return _mark("marked_quotient", self.rec(expr.numerator), self.rec(expr.denominator))

    def map_bitwise_or(self, expr):
        return _mark("marked_or", *[self.rec(c) for c in expr.children])

    def get_cache_key(self, expr):
        return (type(expr), expr)


OPT_ALIAS = {}
OPT_ALIAS_ERRORS = {}
for _combo in itertools.product((False, True), repeat=5):
    _da, _dk, _ir, _ic, _ik = _combo
    if _ic and not (_da and _dk):
        continue
    try:
        OPT_ALIAS[_combo] = optimize_mapper(
            drop_args=_da, drop_kwargs=_dk, inline_rec=_ir, inline_cache=_ic,
            inline_get_cache_key=_ik)(MarkerSrc)
    except Exception as _exc:
        OPT_ALIAS_ERRORS[_combo] = _exc


# family 6: a cache key function with a guard clause (two return statements).  The
# optimizer may refuse to inline such a key (ValueError at decoration time); if it accepts
# the class, constants of different type must still be kept apart.
def _const_name(c):
    return prim.Variable(f"{type(c).__name__}_{c!r}".replace(".", "p").replace("-", "m"))


class PlainConstMarker(IdentityMapper):
    def map_variable(self, expr):
        return RENAME.get(expr.name, expr)

    def map_constant(self, expr):
        return _const_name(expr)


class GuardKeySrc(CachedIdentityMapper):
    def map_variable(self, expr):
        return RENAME.get(expr.name, expr)

    def map_constant(self, expr):
        return _const_name(expr)

    def get_cache_key(self, expr):
        if not isinstance(expr, prim.Expression):
            return (type(expr), expr)
        return expr


OPT_GUARD = {}
OPT_GUARD_REFUSED = {}
OPT_GUARD_ERRORS = {}
for _combo in itertools.product((False, True), repeat=5):
    _da, _dk, _ir, _ic, _ik = _combo
    if _ic and not (_da and _dk):
        continue
    try:
        OPT_GUARD[_combo] = optimize_mapper(
            drop_args=_da, drop_kwargs=_dk, inline_rec=_ir, inline_cache=_ic,
            inline_get_cache_key=_ik)(GuardKeySrc)
    except ValueError as _exc:
        if _ik:
            OPT_GUARD_REFUSED[_combo] = _exc     # declining to inline this key is fine
        else:
            OPT_GUARD_ERRORS[_combo] = _exc
    except Exception as _exc:
        OPT_GUARD_ERRORS[_combo] = _exc
