#!/bin/bash
# Offline setup: verify the interpreter, pymbolic from /repo, Hypothesis, gcc.
set -u
cd "$(dirname "${BASH_SOURCE[0]}")" || exit 1
PY=/venv/bin/python
if ! $PY -c "import hypothesis" 2>/dev/null; then
  /venv/bin/pip install --no-index --find-links /opt/veriftools/wheels hypothesis || exit 1
fi
$PY -c "import jsonschema" 2>/dev/null || \
  /venv/bin/pip install --no-index --find-links /opt/veriftools/wheels jsonschema >/dev/null 2>&1 || true
$PY -W ignore - <<'PYEOF' || exit 1
import os, pymbolic, hypothesis, numpy
assert os.path.realpath(pymbolic.__file__).startswith("/repo/"), pymbolic.__file__
print("pymbolic from", pymbolic.__file__, "hypothesis", hypothesis.__version__)
PYEOF
command -v gcc >/dev/null || echo "warning: gcc missing (C14 will report a harness error)"
chmod +x check tools/*.py 2>/dev/null
mkdir -p evidence replays
exit 0
